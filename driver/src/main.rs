// rustun-facts: a rustc_private driver that dumps the type-checked, resolved MIR of every local
// body of a crate as JSON "facts". It is injected with RUSTC_WORKSPACE_WRAPPER under
// `cargo +nightly check`, so the crates are analysed with exactly the flags of the real build.
// One output file per rustc process: $RUSTUN_FACTS_DIR/<crate_name>.json
#![feature(rustc_private)]
#![allow(clippy::all)]

extern crate rustc_abi;
extern crate rustc_data_structures;
extern crate rustc_driver;
extern crate rustc_hir;
extern crate rustc_index;
extern crate rustc_interface;
extern crate rustc_middle;
extern crate rustc_session;
extern crate rustc_span;

mod json;
use json::J;

use rustc_driver::{Callbacks, Compilation};
use rustc_hir::def::DefKind;
use rustc_hir::def_id::{DefId, LocalDefId, LOCAL_CRATE};
use rustc_middle::mir::{
    self, AggregateKind, AssertKind, BinOp, Body, BorrowKind, CastKind, Const, ConstValue, Operand,
    Place, PlaceElem, ProjectionElem, Rvalue, StatementKind, TerminatorKind, UnOp,
    VarDebugInfoContents,
};
use rustc_middle::ty::print::{with_no_trimmed_paths, with_resolve_crate_name};
use rustc_middle::ty::TypeVisitableExt;
use rustc_middle::ty::{self, GenericArgKind, GenericArgsRef, Instance, Ty, TyCtxt, TypingEnv};
use rustc_span::Span;
use std::collections::HashMap;

struct Cb;
static FEATURES: std::sync::OnceLock<Vec<String>> = std::sync::OnceLock::new();

impl Callbacks for Cb {
    fn after_analysis<'tcx>(
        &mut self,
        _compiler: &rustc_interface::interface::Compiler,
        tcx: TyCtxt<'tcx>,
    ) -> Compilation {
        let dir = std::env::var("RUSTUN_FACTS_DIR").expect("RUSTUN_FACTS_DIR not set");
        let crate_name = tcx.crate_name(LOCAL_CRATE).to_string();
        let mut ex = Extractor::new(tcx, crate_name.clone());
        let doc = ex.run();
        let mut s = String::new();
        doc.write(&mut s);
        let tmp = format!("{}/.{}.json.tmp", dir, crate_name);
        let fin = format!("{}/{}.json", dir, crate_name);
        std::fs::write(&tmp, s).expect("write facts");
        std::fs::rename(&tmp, &fin).expect("rename facts");
        Compilation::Continue
    }
}

fn main() {
    // RUSTC_WORKSPACE_WRAPPER: argv[1] is the path of the real rustc; drop it.
    let mut args: Vec<String> = std::env::args().collect();
    if args.len() > 1 && (args[1].ends_with("rustc") || args[1].contains("/rustc")) {
        args.remove(1);
    }
    // cargo probes with `rustc - --crate-name ___ --print=...` or `-vV`; let those run unmodified.
    let probing = args.iter().any(|a| a == "-vV" || a.starts_with("--print") || a == "___")
        || !args.iter().any(|a| a == "--crate-name");
    let mut feats = Vec::new();
    for w in args.windows(2) {
        if w[0] == "--cfg" {
            if let Some(rest) = w[1].strip_prefix("feature=") {
                feats.push(rest.trim_matches('"').to_string());
            }
        }
    }
    let _ = FEATURES.set(feats);
    let code = rustc_driver::catch_with_exit_code(|| {
        if probing {
            struct Nop;
            impl Callbacks for Nop {}
            rustc_driver::run_compiler(&args, &mut Nop);
        } else {
            rustc_driver::run_compiler(&args, &mut Cb);
        }
    });
    std::process::exit(if code == std::process::ExitCode::SUCCESS { 0 } else { 1 });
}

struct Extractor<'tcx> {
    tcx: TyCtxt<'tcx>,
    crate_name: String,
    types: Vec<J>,
    type_ix: HashMap<Ty<'tcx>, usize>,
    adts: HashMap<DefId, J>,
    adt_order: Vec<DefId>,
}

fn jstr(s: impl Into<String>) -> J {
    J::Str(s.into())
}
fn jnum(n: impl TryInto<i128>) -> J {
    J::Num(n.try_into().ok().unwrap_or(-1))
}
fn obj(v: Vec<(&str, J)>) -> J {
    J::Obj(v.into_iter().map(|(k, v)| (k.to_string(), v)).collect())
}

impl<'tcx> Extractor<'tcx> {
    fn new(tcx: TyCtxt<'tcx>, crate_name: String) -> Self {
        Extractor {
            tcx,
            crate_name,
            types: Vec::new(),
            type_ix: HashMap::new(),
            adts: HashMap::new(),
            adt_order: Vec::new(),
        }
    }

    // ---------------------------------------------------------------- naming
    fn def_key(&self, def_id: DefId) -> String {
        let tcx = self.tcx;
        let krate = tcx.crate_name(def_id.krate).to_string();
        format!("{}{}", krate, tcx.def_path(def_id).to_string_no_crate_verbose())
    }

    fn def_pretty(&self, def_id: DefId) -> String {
        let tcx = self.tcx;
        with_no_trimmed_paths!(with_resolve_crate_name!(tcx.def_path_str(def_id)))
    }

    fn def_pretty_args(&self, def_id: DefId, args: GenericArgsRef<'tcx>) -> String {
        let tcx = self.tcx;
        with_no_trimmed_paths!(with_resolve_crate_name!(tcx.def_path_str_with_args(def_id, args)))
    }

    fn ty_str(&self, ty: Ty<'tcx>) -> String {
        with_no_trimmed_paths!(with_resolve_crate_name!(format!("{}", ty)))
    }

    fn span_json(&self, span: Span) -> J {
        let sm = self.tcx.sess.source_map();
        let exp = span.from_expansion();
        let sp = if exp { span.source_callsite() } else { span };
        let lo = sm.lookup_char_pos(sp.lo());
        let hi = sm.lookup_char_pos(sp.hi());
        let file = match &lo.file.name {
            rustc_span::FileName::Real(r) => match r.local_path() {
                Some(p) => p.to_string_lossy().to_string(),
                None => format!("{:?}", r),
            },
            other => format!("{:?}", other),
        };
        let mut v = vec![("file", jstr(file)), ("line", jnum(lo.line)), ("end", jnum(hi.line))];
        if exp {
            v.push(("exp", J::Bool(true)));
            let mut names = Vec::new();
            let mut cur = span;
            let mut guard = 0;
            while cur.from_expansion() && guard < 8 {
                let data = cur.ctxt().outer_expn_data();
                names.push(jstr(format!("{}", data.kind.descr())));
                cur = data.call_site;
                guard += 1;
            }
            v.push(("macros", J::Arr(names)));
        }
        obj(v)
    }

    fn line_of(&self, span: Span) -> J {
        let sm = self.tcx.sess.source_map();
        let sp = if span.from_expansion() { span.source_callsite() } else { span };
        jnum(sm.lookup_char_pos(sp.lo()).line)
    }

    // ---------------------------------------------------------------- types
    fn ty(&mut self, ty: Ty<'tcx>) -> J {
        jnum(self.ty_ix(ty))
    }

    fn ty_ix(&mut self, ty: Ty<'tcx>) -> usize {
        if let Some(ix) = self.type_ix.get(&ty) {
            return *ix;
        }
        let ix = self.types.len();
        self.types.push(J::Null);
        self.type_ix.insert(ty, ix);
        let s = self.ty_str(ty);
        let mut v: Vec<(&str, J)> = vec![("s", jstr(s))];
        match ty.kind() {
            ty::Bool => v.push(("k", jstr("bool"))),
            ty::Char => v.push(("k", jstr("char"))),
            ty::Int(i) => {
                v.push(("k", jstr("int")));
                v.push(("name", jstr(i.name_str())));
                v.push(("signed", J::Bool(true)));
                v.push(("bits", jnum(i.bit_width().unwrap_or(64))));
            }
            ty::Uint(u) => {
                v.push(("k", jstr("int")));
                v.push(("name", jstr(u.name_str())));
                v.push(("signed", J::Bool(false)));
                v.push(("bits", jnum(u.bit_width().unwrap_or(64))));
            }
            ty::Float(f) => {
                v.push(("k", jstr("float")));
                v.push(("name", jstr(f.name_str())));
            }
            ty::Str => v.push(("k", jstr("str"))),
            ty::Never => v.push(("k", jstr("never"))),
            ty::Adt(adt, args) => {
                v.push(("k", jstr("adt")));
                v.push(("name", jstr(self.def_pretty(adt.did()))));
                v.push(("key", jstr(self.def_key(adt.did()))));
                let a = self.generic_args(args);
                v.push(("args", a));
                self.note_adt(adt.did());
            }
            ty::Ref(_, inner, m) => {
                v.push(("k", jstr("ref")));
                v.push(("mut", J::Bool(m.is_mut())));
                let t = self.ty(*inner);
                v.push(("to", t));
            }
            ty::RawPtr(inner, m) => {
                v.push(("k", jstr("ptr")));
                v.push(("mut", J::Bool(m.is_mut())));
                let t = self.ty(*inner);
                v.push(("to", t));
            }
            ty::Slice(inner) => {
                v.push(("k", jstr("slice")));
                let t = self.ty(*inner);
                v.push(("of", t));
            }
            ty::Array(inner, len) => {
                v.push(("k", jstr("array")));
                let t = self.ty(*inner);
                v.push(("of", t));
                let n = len.try_to_target_usize(self.tcx);
                v.push(("len", match n {
                    Some(n) => jnum(n),
                    None => J::Null,
                }));
            }
            ty::Tuple(tys) => {
                v.push(("k", jstr("tuple")));
                let mut a = Vec::new();
                for t in tys.iter() {
                    a.push(self.ty(t));
                }
                v.push(("of", J::Arr(a)));
            }
            ty::FnDef(def_id, args) => {
                v.push(("k", jstr("fndef")));
                v.push(("key", jstr(self.def_key(*def_id))));
                v.push(("name", jstr(self.def_pretty(*def_id))));
                let a = self.generic_args(args);
                v.push(("args", a));
            }
            ty::FnPtr(..) => v.push(("k", jstr("fnptr"))),
            ty::Closure(def_id, args) => {
                v.push(("k", jstr("closure")));
                v.push(("key", jstr(self.def_key(*def_id))));
                let up = args.as_closure().upvar_tys();
                let mut a = Vec::new();
                for t in up.iter() {
                    a.push(self.ty(t));
                }
                v.push(("upvars", J::Arr(a)));
            }
            ty::Param(p) => {
                v.push(("k", jstr("param")));
                v.push(("name", jstr(p.name.to_string())));
            }
            ty::Dynamic(preds, ..) => {
                v.push(("k", jstr("dyn")));
                if let Some(p) = preds.principal_def_id() {
                    v.push(("trait", jstr(self.def_key(p))));
                    v.push(("name", jstr(self.def_pretty(p))));
                }
            }
            ty::Alias(..) => v.push(("k", jstr("alias"))),
            ty::Foreign(_) => v.push(("k", jstr("foreign"))),
            _ => v.push(("k", jstr("other"))),
        }
        self.types[ix] = obj(v);
        ix
    }

    fn generic_args(&mut self, args: GenericArgsRef<'tcx>) -> J {
        let mut out = Vec::new();
        for a in args.iter() {
            match a.kind() {
                GenericArgKind::Type(t) => out.push(self.ty(t)),
                GenericArgKind::Lifetime(_) => {}
                GenericArgKind::Const(c) => out.push(jstr(format!("const {}", c))),
            }
        }
        J::Arr(out)
    }

    fn note_adt(&mut self, did: DefId) {
        if self.adts.contains_key(&did) {
            return;
        }
        self.adts.insert(did, J::Null);
        self.adt_order.push(did);
        let tcx = self.tcx;
        let adt = tcx.adt_def(did);
        let kind = if adt.is_enum() {
            "enum"
        } else if adt.is_union() {
            "union"
        } else {
            "struct"
        };
        let mut variants = Vec::new();
        let local = did.is_local();
        for (vix, var) in adt.variants().iter_enumerated() {
            let mut fields = Vec::new();
            for f in var.fields.iter() {
                let mut fv = vec![("name", jstr(f.name.to_string()))];
                if local {
                    let fty = tcx.type_of(f.did).instantiate_identity().skip_norm_wip();
                    let t = self.ty(fty);
                    fv.push(("ty", t));
                    fv.push(("vis", jstr(format!("{:?}", f.vis))));
                }
                fields.push(obj(fv));
            }
            let discr = if adt.is_enum() {
                let d = adt.discriminant_for_variant(tcx, vix);
                jstr(format!("{}", d.val))
            } else {
                J::Null
            };
            variants.push(obj(vec![
                ("name", jstr(var.name.to_string())),
                ("discr", discr),
                ("fields", J::Arr(fields)),
            ]));
        }
        let mut v = vec![
            ("key", jstr(self.def_key(did))),
            ("name", jstr(self.def_pretty(did))),
            ("kind", jstr(kind)),
            ("local", J::Bool(local)),
            ("variants", J::Arr(variants)),
        ];
        if local {
            v.push(("vis", jstr(format!("{:?}", tcx.visibility(did)))));
            v.push(("span", self.span_json(tcx.def_span(did))));
        }
        self.adts.insert(did, obj(v));
    }

    // ---------------------------------------------------------------- run
    fn run(&mut self) -> J {
        let tcx = self.tcx;
        let mut bodies = Vec::new();
        let owners: Vec<LocalDefId> = tcx.hir_body_owners().collect();
        for ldid in owners {
            let def_id = ldid.to_def_id();
            let kind = tcx.def_kind(def_id);
            let body: &Body<'tcx> = match kind {
                DefKind::Fn | DefKind::AssocFn | DefKind::Closure => tcx.optimized_mir(def_id),
                DefKind::Const { .. }
                | DefKind::Static { .. }
                | DefKind::AssocConst { .. }
                | DefKind::AnonConst
                | DefKind::InlineConst => tcx.mir_for_ctfe(def_id),
                _ => continue,
            };
            bodies.push(self.body_json(ldid, kind, body));
        }
        // local ADTs (also those never mentioned in a body)
        for ldid in tcx.hir_crate_items(()).definitions() {
            let k = tcx.def_kind(ldid);
            if matches!(k, DefKind::Struct | DefKind::Enum | DefKind::Union) {
                self.note_adt(ldid.to_def_id());
            }
        }
        // impls
        let mut impls = Vec::new();
        for ldid in tcx.hir_crate_items(()).definitions() {
            let def_id = ldid.to_def_id();
            if let DefKind::Impl { of_trait } = tcx.def_kind(def_id) {
                let self_ty = tcx.type_of(def_id).instantiate_identity().skip_norm_wip();
                let mut v = vec![
                    ("key", jstr(self.def_key(def_id))),
                    ("self_ty", self.ty(self_ty)),
                    ("span", self.span_json(tcx.def_span(def_id))),
                ];
                if of_trait {
                    let tr = tcx.impl_trait_ref(def_id).instantiate_identity().skip_norm_wip();
                    v.push(("trait", jstr(self.def_key(tr.def_id))));
                    v.push(("trait_name", jstr(self.def_pretty(tr.def_id))));
                    let a = self.generic_args(tr.args);
                    v.push(("trait_args", a));
                }
                let mut items = Vec::new();
                for it in tcx.associated_items(def_id).in_definition_order() {
                    let mut iv = vec![
                        ("key", jstr(self.def_key(it.def_id))),
                        ("name", jstr(it.name().to_string())),
                    ];
                    if let Some(t) = it.trait_item_def_id() {
                        iv.push(("trait_item", jstr(self.def_key(t))));
                    }
                    items.push(obj(iv));
                }
                v.push(("items", J::Arr(items)));
                impls.push(obj(v));
            }
        }
        // traits (with provided methods)
        let mut traits = Vec::new();
        for ldid in tcx.hir_crate_items(()).definitions() {
            let def_id = ldid.to_def_id();
            if let DefKind::Trait = tcx.def_kind(def_id) {
                let mut items = Vec::new();
                for it in tcx.associated_items(def_id).in_definition_order() {
                    items.push(obj(vec![
                        ("key", jstr(self.def_key(it.def_id))),
                        ("name", jstr(it.name().to_string())),
                        ("has_default", J::Bool(it.defaultness(tcx).has_value())),
                    ]));
                }
                traits.push(obj(vec![
                    ("key", jstr(self.def_key(def_id))),
                    ("name", jstr(self.def_pretty(def_id))),
                    ("items", J::Arr(items)),
                ]));
            }
        }
        let mut adts = Vec::new();
        let order = self.adt_order.clone();
        for d in order {
            adts.push(self.adts.get(&d).cloned().unwrap_or(J::Null));
        }
        let cfgs: Vec<J> = tcx
            .sess
            .opts
            .cg
            .target_feature
            .split(',')
            .filter(|s| !s.is_empty())
            .map(|s| jstr(s))
            .collect();
        let mut feats = Vec::new();
        for f in FEATURES.get().cloned().unwrap_or_default() {
            feats.push(jstr(f));
        }
        let _ = cfgs;
        obj(vec![
            ("crate", jstr(self.crate_name.clone())),
            ("features", J::Arr(feats)),
            ("debug_assertions", J::Bool(tcx.sess.opts.debug_assertions)),
            ("overflow_checks", J::Bool(tcx.sess.overflow_checks())),
            ("bodies", J::Arr(bodies)),
            ("impls", J::Arr(impls)),
            ("traits", J::Arr(traits)),
            ("adts", J::Arr(adts)),
            ("types", J::Arr(std::mem::take(&mut self.types))),
        ])
    }

    // ---------------------------------------------------------------- bodies
    fn body_json(&mut self, ldid: LocalDefId, kind: DefKind, body: &Body<'tcx>) -> J {
        let tcx = self.tcx;
        let def_id = ldid.to_def_id();
        let typing_env = TypingEnv::post_analysis(tcx, def_id);
        let mut v: Vec<(&str, J)> = vec![
            ("key", jstr(self.def_key(def_id))),
            ("path", jstr(self.def_pretty(def_id))),
            ("kind", jstr(format!("{:?}", kind))),
            ("span", self.span_json(tcx.def_span(def_id))),
            ("arg_count", jnum(body.arg_count)),
        ];
        if matches!(kind, DefKind::Fn | DefKind::AssocFn) {
            v.push(("vis", jstr(format!("{:?}", tcx.visibility(def_id)))));
            v.push(("name", jstr(tcx.item_name(def_id).to_string())));
        }
        if matches!(kind, DefKind::Closure) {
            let parent = tcx.typeck_root_def_id(def_id);
            v.push(("closure_of", jstr(self.def_key(parent))));
            v.push(("lexical_parent", jstr(self.def_key(tcx.parent(def_id)))));
        }
        if matches!(kind, DefKind::AssocFn | DefKind::AssocConst { .. }) {
            let parent = tcx.parent(def_id);
            match tcx.def_kind(parent) {
                DefKind::Impl { of_trait } => {
                    let self_ty = tcx.type_of(parent).instantiate_identity().skip_norm_wip();
                    v.push(("impl", jstr(self.def_key(parent))));
                    let t = self.ty(self_ty);
                    v.push(("self_ty", t));
                    if of_trait {
                        let tr = tcx.impl_trait_ref(parent).instantiate_identity().skip_norm_wip();
                        v.push(("trait", jstr(self.def_key(tr.def_id))));
                        v.push(("trait_name", jstr(self.def_pretty(tr.def_id))));
                        if let Some(ti) = tcx.associated_item(def_id).trait_item_def_id() {
                            v.push(("trait_item", jstr(self.def_key(ti))));
                        }
                    }
                }
                DefKind::Trait => {
                    v.push(("trait", jstr(self.def_key(parent))));
                    v.push(("trait_name", jstr(self.def_pretty(parent))));
                    v.push(("provided", J::Bool(true)));
                }
                _ => {}
            }
        }
        self.body_core(body, typing_env, &mut v);
        if matches!(kind, DefKind::Fn | DefKind::AssocFn | DefKind::Closure) {
            let proms = tcx.promoted_mir(def_id);
            let mut pv = Vec::new();
            for pb in proms.iter() {
                let mut pvv: Vec<(&str, J)> = Vec::new();
                self.body_core(pb, typing_env, &mut pvv);
                pv.push(obj(pvv));
            }
            v.push(("promoted", J::Arr(pv)));
        }
        obj(v)
    }

    fn body_core(&mut self, body: &Body<'tcx>, typing_env: TypingEnv<'tcx>, v: &mut Vec<(&'static str, J)>) {
        // locals
        let mut locals = Vec::new();
        for (_l, decl) in body.local_decls.iter_enumerated() {
            let t = self.ty(decl.ty);
            locals.push(obj(vec![("ty", t), ("mut", J::Bool(decl.mutability.is_mut()))]));
        }
        v.push(("locals", J::Arr(locals)));
        // debug info
        let mut dbg = Vec::new();
        for vdi in body.var_debug_info.iter() {
            if let VarDebugInfoContents::Place(p) = &vdi.value {
                let pj = self.place(body, *p);
                dbg.push(obj(vec![("name", jstr(vdi.name.to_string())), ("place", pj)]));
            }
        }
        v.push(("debug", J::Arr(dbg)));
        // blocks
        let mut blocks = Vec::new();
        for (_bb, data) in body.basic_blocks.iter_enumerated() {
            let mut stmts = Vec::new();
            for st in data.statements.iter() {
                match &st.kind {
                    StatementKind::Assign(b) => {
                        let (place, rv) = &**b;
                        let p = self.place(body, *place);
                        let r = self.rvalue(body, typing_env, rv);
                        stmts.push(obj(vec![
                            ("k", jstr("assign")),
                            ("place", p),
                            ("rv", r),
                            ("line", self.line_of(st.source_info.span)),
                            ("exp", J::Bool(st.source_info.span.from_expansion())),
                        ]));
                    }
                    StatementKind::SetDiscriminant { place, variant_index } => {
                        let p = self.place(body, **place);
                        stmts.push(obj(vec![
                            ("k", jstr("setdiscr")),
                            ("place", p),
                            ("variant", jnum(variant_index.as_usize())),
                        ]));
                    }
                    StatementKind::Intrinsic(i) => {
                        stmts.push(obj(vec![("k", jstr("intrinsic")), ("s", jstr(format!("{:?}", i)))]));
                    }
                    _ => {}
                }
            }
            let term = data.terminator();
            let tj = self.terminator(body, typing_env, term);
            blocks.push(obj(vec![
                ("stmts", J::Arr(stmts)),
                ("term", tj),
                ("cleanup", J::Bool(data.is_cleanup)),
            ]));
        }
        v.push(("blocks", J::Arr(blocks)));
    }

    fn place(&mut self, body: &Body<'tcx>, place: Place<'tcx>) -> J {
        let tcx = self.tcx;
        let mut proj = Vec::new();
        let mut pty = mir::PlaceTy::from_ty(body.local_decls[place.local].ty);
        for elem in place.projection.iter() {
            let e: PlaceElem<'tcx> = elem;
            match e {
                ProjectionElem::Deref => proj.push(obj(vec![("k", jstr("deref"))])),
                ProjectionElem::Field(f, fty) => {
                    let mut fv = vec![("k", jstr("field")), ("i", jnum(f.as_usize()))];
                    if let ty::Adt(adt, _) = pty.ty.kind() {
                        let vix = pty.variant_index.unwrap_or(rustc_abi::FIRST_VARIANT);
                        if vix.as_usize() < adt.variants().len() {
                            let var = adt.variant(vix);
                            if f.as_usize() < var.fields.len() {
                                fv.push(("name", jstr(var.fields[f].name.to_string())));
                            }
                            fv.push(("adt", jstr(self.def_pretty(adt.did()))));
                            if adt.is_enum() {
                                fv.push(("variant", jstr(var.name.to_string())));
                            }
                        }
                    }
                    let t = self.ty(fty);
                    fv.push(("ty", t));
                    proj.push(obj(fv));
                }
                ProjectionElem::Index(l) => {
                    proj.push(obj(vec![("k", jstr("index")), ("local", jnum(l.as_usize()))]))
                }
                ProjectionElem::ConstantIndex { offset, min_length, from_end } => proj.push(obj(vec![
                    ("k", jstr("constindex")),
                    ("offset", jnum(offset)),
                    ("min_length", jnum(min_length)),
                    ("from_end", J::Bool(from_end)),
                ])),
                ProjectionElem::Subslice { from, to, from_end } => proj.push(obj(vec![
                    ("k", jstr("subslice")),
                    ("from", jnum(from)),
                    ("to", jnum(to)),
                    ("from_end", J::Bool(from_end)),
                ])),
                ProjectionElem::Downcast(name, vix) => proj.push(obj(vec![
                    ("k", jstr("downcast")),
                    ("variant", jnum(vix.as_usize())),
                    ("name", match name {
                        Some(n) => jstr(n.to_string()),
                        None => J::Null,
                    }),
                ])),
                ProjectionElem::OpaqueCast(_) => proj.push(obj(vec![("k", jstr("opaquecast"))])),
                ProjectionElem::UnwrapUnsafeBinder(_) => proj.push(obj(vec![("k", jstr("unwrapbinder"))])),
            }
            pty = pty.projection_ty(tcx, e);
        }
        obj(vec![("l", jnum(place.local.as_usize())), ("p", J::Arr(proj))])
    }

    fn constant(&mut self, typing_env: TypingEnv<'tcx>, c: &mir::ConstOperand<'tcx>) -> J {
        let tcx = self.tcx;
        let ty = c.const_.ty();
        let mut v: Vec<(&str, J)> = vec![("k", jstr("const"))];
        let t = self.ty(ty);
        v.push(("ty", t));
        match ty.kind() {
            ty::FnDef(def_id, args) => {
                v.push(("fn", self.fn_ref(typing_env, *def_id, args)));
                return obj(v);
            }
            _ => {}
        }
        // named constant?
        if let Const::Unevaluated(uv, _) = c.const_ {
            v.push(("named", jstr(self.def_pretty(uv.def))));
            if let Some(p) = uv.promoted {
                v.push(("promoted", jnum(p.as_usize())));
                v.push(("promoted_of", jstr(self.def_key(uv.def))));
            }
        }
        let is_scalar = matches!(
            ty.kind(),
            ty::Bool | ty::Char | ty::Int(_) | ty::Uint(_) | ty::Float(_)
        );
        if is_scalar {
            if let Some(si) = c.const_.try_eval_scalar_int(tcx, typing_env) {
                let size = si.size();
                let bits = si.to_bits(size);
                v.push(("bits", jstr(format!("{}", bits))));
                v.push(("size", jnum(size.bytes())));
                if let ty::Int(_) = ty.kind() {
                    let sv = size.sign_extend(bits) as i128;
                    v.push(("sval", jstr(format!("{}", sv))));
                }
                if let ty::Float(_) = ty.kind() {
                    if size.bytes() == 4 {
                        v.push(("fval", jstr(format!("{:?}", f32::from_bits(bits as u32)))));
                    } else if size.bytes() == 8 {
                        v.push(("fval", jstr(format!("{:?}", f64::from_bits(bits as u64)))));
                    }
                }
            }
        } else {
            // &str literal: keep the text when directly available
            if let Const::Val(ConstValue::Slice { .. }, _) = c.const_ {
                if let ty::Ref(_, inner, _) = ty.kind() {
                    if inner.is_str() {
                        if let Const::Val(cv, _) = c.const_ {
                            if let Some(bytes) = cv.try_get_slice_bytes_for_diagnostics(tcx) {
                                v.push(("str", jstr(String::from_utf8_lossy(bytes).to_string())));
                            }
                        }
                    }
                }
            }
            v.push(("s", jstr(with_no_trimmed_paths!(format!("{}", c.const_)))));
        }
        obj(v)
    }

    fn fn_ref(&mut self, typing_env: TypingEnv<'tcx>, def_id: DefId, args: GenericArgsRef<'tcx>) -> J {
        let tcx = self.tcx;
        let mut v: Vec<(&str, J)> = vec![
            ("key", jstr(self.def_key(def_id))),
            ("path", jstr(self.def_pretty(def_id))),
            ("full", jstr(self.def_pretty_args(def_id, args))),
            ("dk", jstr(format!("{:?}", tcx.def_kind(def_id)))),
        ];
        let a = self.generic_args(args);
        v.push(("args", a));
        if let Some(tr) = tcx.trait_of_assoc(def_id) {
            v.push(("trait", jstr(self.def_key(tr))));
            v.push(("trait_name", jstr(self.def_pretty(tr))));
            if args.len() > 0 {
                if let Some(self_ty) = args.get(0).and_then(|a| a.as_type()) {
                    let t = self.ty(self_ty);
                    v.push(("self_ty", t));
                }
            }
        }
        // resolve
        let resolved = if args.has_escaping_bound_vars() {
            Err(())
        } else {
            match Instance::try_resolve(tcx, typing_env, def_id, args) {
                Ok(Some(inst)) => Ok(inst),
                _ => Err(()),
            }
        };
        match resolved {
            Ok(inst) => {
                let rk = match inst.def {
                    ty::InstanceKind::Item(_) => "item",
                    ty::InstanceKind::Virtual(..) => "virtual",
                    ty::InstanceKind::Intrinsic(_) => "intrinsic",
                    ty::InstanceKind::ClosureOnceShim { .. } => "closure_once_shim",
                    ty::InstanceKind::FnPtrShim(..) => "fnptr_shim",
                    ty::InstanceKind::DropGlue(..) => "drop_glue",
                    ty::InstanceKind::CloneShim(..) => "clone_shim",
                    ty::InstanceKind::ReifyShim(..) => "reify_shim",
                    ty::InstanceKind::VTableShim(..) => "vtable_shim",
                    _ => "other",
                };
                let rid = inst.def_id();
                v.push(("rk", jstr(rk)));
                v.push(("rkey", jstr(self.def_key(rid))));
                v.push(("rpath", jstr(self.def_pretty(rid))));
                v.push(("rfull", jstr(self.def_pretty_args(rid, inst.args))));
                let ra = self.generic_args(inst.args);
                v.push(("rargs", ra));
                // still a trait method without body => unresolved (type parameter receiver)
                let unresolved_trait = tcx.trait_of_assoc(rid).is_some()
                    && !tcx.defaultness(rid).has_value();
                v.push(("resolved", J::Bool(!unresolved_trait && rk != "virtual")));
            }
            Err(()) => {
                v.push(("resolved", J::Bool(false)));
            }
        }
        obj(v)
    }

    fn operand(&mut self, body: &Body<'tcx>, typing_env: TypingEnv<'tcx>, op: &Operand<'tcx>) -> J {
        match op {
            Operand::Copy(p) => {
                let pj = self.place(body, *p);
                obj(vec![("k", jstr("copy")), ("place", pj)])
            }
            Operand::Move(p) => {
                let pj = self.place(body, *p);
                obj(vec![("k", jstr("move")), ("place", pj)])
            }
            Operand::Constant(c) => self.constant(typing_env, c),
            #[allow(unreachable_patterns)]
            _ => obj(vec![("k", jstr("other_operand")), ("s", jstr(format!("{:?}", op)))]),
        }
    }

    fn rvalue(&mut self, body: &Body<'tcx>, te: TypingEnv<'tcx>, rv: &Rvalue<'tcx>) -> J {
        let tcx = self.tcx;
        let rty = rv.ty(&body.local_decls, tcx);
        let tyj = self.ty(rty);
        let mut v: Vec<(&str, J)> = Vec::new();
        match rv {
            Rvalue::Use(op, ..) => {
                v.push(("k", jstr("use")));
                v.push(("op", self.operand(body, te, op)));
            }
            Rvalue::Repeat(op, n) => {
                v.push(("k", jstr("repeat")));
                v.push(("op", self.operand(body, te, op)));
                v.push(("n", match n.try_to_target_usize(tcx) {
                    Some(n) => jnum(n),
                    None => J::Null,
                }));
            }
            Rvalue::Ref(_, bk, p) => {
                v.push(("k", jstr("ref")));
                v.push(("mut", J::Bool(matches!(bk, BorrowKind::Mut { .. }))));
                v.push(("place", self.place(body, *p)));
            }
            Rvalue::RawPtr(k, p) => {
                v.push(("k", jstr("rawptr")));
                v.push(("mut", J::Bool(format!("{:?}", k).contains("Mut"))));
                v.push(("place", self.place(body, *p)));
            }
            Rvalue::Cast(ck, op, ty) => {
                v.push(("k", jstr("cast")));
                let cks = match ck {
                    CastKind::IntToInt => "IntToInt".to_string(),
                    CastKind::PointerCoercion(pc, _) => format!("PointerCoercion({:?})", pc),
                    other => format!("{:?}", other),
                };
                v.push(("cast", jstr(cks)));
                v.push(("op", self.operand(body, te, op)));
                v.push(("to", self.ty(*ty)));
                let from = op.ty(&body.local_decls, tcx);
                v.push(("from", self.ty(from)));
            }
            Rvalue::BinaryOp(op, ops) => {
                v.push(("k", jstr("binop")));
                v.push(("op", jstr(binop_name(*op))));
                let (a, b) = &**ops;
                v.push(("a", self.operand(body, te, a)));
                v.push(("b", self.operand(body, te, b)));
                let aty = a.ty(&body.local_decls, tcx);
                v.push(("aty", self.ty(aty)));
            }
            Rvalue::UnaryOp(op, a) => {
                v.push(("k", jstr("unop")));
                v.push(("op", jstr(match op {
                    UnOp::Not => "Not",
                    UnOp::Neg => "Neg",
                    UnOp::PtrMetadata => "PtrMetadata",
                })));
                v.push(("a", self.operand(body, te, a)));
            }
            Rvalue::Discriminant(p) => {
                v.push(("k", jstr("discr")));
                v.push(("place", self.place(body, *p)));
                let pty = p.ty(&body.local_decls, tcx).ty;
                v.push(("of", self.ty(pty)));
            }
            Rvalue::Aggregate(kind, ops) => {
                v.push(("k", jstr("aggregate")));
                match &**kind {
                    AggregateKind::Array(_) => v.push(("agg", jstr("array"))),
                    AggregateKind::Tuple => v.push(("agg", jstr("tuple"))),
                    AggregateKind::Adt(did, vix, _args, _, active) => {
                        v.push(("agg", jstr("adt")));
                        v.push(("adt", jstr(self.def_pretty(*did))));
                        self.note_adt(*did);
                        let adt = tcx.adt_def(*did);
                        v.push(("variant", jnum(vix.as_usize())));
                        v.push(("variant_name", jstr(adt.variant(*vix).name.to_string())));
                        let names: Vec<J> = adt
                            .variant(*vix)
                            .fields
                            .iter()
                            .map(|f| jstr(f.name.to_string()))
                            .collect();
                        v.push(("fields", J::Arr(names)));
                        if let Some(a) = active {
                            v.push(("active", jnum(a.as_usize())));
                        }
                    }
                    AggregateKind::Closure(did, _) => {
                        v.push(("agg", jstr("closure")));
                        v.push(("closure", jstr(self.def_key(*did))));
                    }
                    AggregateKind::RawPtr(..) => v.push(("agg", jstr("rawptr"))),
                    _ => v.push(("agg", jstr("other"))),
                }
                let mut a = Vec::new();
                for op in ops.iter() {
                    a.push(self.operand(body, te, op));
                }
                v.push(("ops", J::Arr(a)));
            }
            Rvalue::CopyForDeref(p) => {
                v.push(("k", jstr("use")));
                let pj = self.place(body, *p);
                v.push(("op", obj(vec![("k", jstr("copy")), ("place", pj)])));
            }
            Rvalue::ThreadLocalRef(d) => {
                v.push(("k", jstr("tlsref")));
                v.push(("def", jstr(self.def_key(*d))));
            }
            other => {
                v.push(("k", jstr("other")));
                v.push(("s", jstr(format!("{:?}", other))));
            }
        }
        v.push(("ty", tyj));
        obj(v)
    }

    fn terminator(&mut self, body: &Body<'tcx>, te: TypingEnv<'tcx>, term: &mir::Terminator<'tcx>) -> J {
        let tcx = self.tcx;
        let span = term.source_info.span;
        let mut v: Vec<(&str, J)> = vec![
            ("line", self.line_of(span)),
            ("exp", J::Bool(span.from_expansion())),
        ];
        match &term.kind {
            TerminatorKind::Goto { target } => {
                v.push(("k", jstr("goto")));
                v.push(("target", jnum(target.as_usize())));
            }
            TerminatorKind::SwitchInt { discr, targets } => {
                v.push(("k", jstr("switch")));
                v.push(("discr", self.operand(body, te, discr)));
                let dty = discr.ty(&body.local_decls, tcx);
                v.push(("dty", self.ty(dty)));
                let mut ts = Vec::new();
                for (val, bb) in targets.iter() {
                    ts.push(J::Arr(vec![jstr(format!("{}", val)), jnum(bb.as_usize())]));
                }
                v.push(("targets", J::Arr(ts)));
                v.push(("otherwise", jnum(targets.otherwise().as_usize())));
            }
            TerminatorKind::Return => v.push(("k", jstr("return"))),
            TerminatorKind::Unreachable => v.push(("k", jstr("unreachable"))),
            TerminatorKind::UnwindResume => v.push(("k", jstr("resume"))),
            TerminatorKind::UnwindTerminate(_) => v.push(("k", jstr("abort"))),
            TerminatorKind::Drop { place, target, unwind, .. } => {
                v.push(("k", jstr("drop")));
                v.push(("place", self.place(body, *place)));
                let pty = place.ty(&body.local_decls, tcx).ty;
                v.push(("ty", self.ty(pty)));
                v.push(("target", jnum(target.as_usize())));
                v.push(("unwind", unwind_json(unwind)));
            }
            TerminatorKind::Call { func, args, destination, target, unwind, fn_span, .. } => {
                v.push(("k", jstr("call")));
                v.push(("func", self.operand(body, te, func)));
                let mut a = Vec::new();
                for arg in args.iter() {
                    a.push(self.operand(body, te, &arg.node));
                }
                v.push(("args", J::Arr(a)));
                v.push(("dest", self.place(body, *destination)));
                v.push(("target", match target {
                    Some(t) => jnum(t.as_usize()),
                    None => J::Null,
                }));
                v.push(("unwind", unwind_json(unwind)));
                v.push(("fn_line", self.line_of(*fn_span)));
                v.push(("fn_exp", J::Bool(fn_span.from_expansion())));
            }
            TerminatorKind::TailCall { func, args, .. } => {
                v.push(("k", jstr("tailcall")));
                v.push(("func", self.operand(body, te, func)));
                let mut a = Vec::new();
                for arg in args.iter() {
                    a.push(self.operand(body, te, &arg.node));
                }
                v.push(("args", J::Arr(a)));
            }
            TerminatorKind::Assert { cond, expected, msg, target, unwind } => {
                v.push(("k", jstr("assert")));
                v.push(("cond", self.operand(body, te, cond)));
                v.push(("expected", J::Bool(*expected)));
                let (mk, ops): (&str, Vec<&Operand<'tcx>>) = match &**msg {
                    AssertKind::BoundsCheck { len, index } => ("BoundsCheck", vec![len, index]),
                    AssertKind::Overflow(_, a, b) => ("Overflow", vec![a, b]),
                    AssertKind::OverflowNeg(a) => ("OverflowNeg", vec![a]),
                    AssertKind::DivisionByZero(a) => ("DivisionByZero", vec![a]),
                    AssertKind::RemainderByZero(a) => ("RemainderByZero", vec![a]),
                    AssertKind::MisalignedPointerDereference { .. } => ("MisalignedPointerDereference", vec![]),
                    AssertKind::NullPointerDereference => ("NullPointerDereference", vec![]),
                    _ => ("Other", vec![]),
                };
                v.push(("msg", jstr(mk)));
                if let AssertKind::Overflow(op, ..) = &**msg {
                    v.push(("binop", jstr(binop_name(*op))));
                }
                let mut a = Vec::new();
                for o in ops {
                    a.push(self.operand(body, te, o));
                }
                v.push(("ops", J::Arr(a)));
                v.push(("target", jnum(target.as_usize())));
                v.push(("unwind", unwind_json(unwind)));
            }
            TerminatorKind::FalseEdge { real_target, .. } => {
                v.push(("k", jstr("goto")));
                v.push(("target", jnum(real_target.as_usize())));
            }
            TerminatorKind::FalseUnwind { real_target, .. } => {
                v.push(("k", jstr("goto")));
                v.push(("target", jnum(real_target.as_usize())));
            }
            other => {
                v.push(("k", jstr("other")));
                v.push(("s", jstr(format!("{:?}", other))));
            }
        }
        obj(v)
    }
}

fn unwind_json(u: &mir::UnwindAction) -> J {
    match u {
        mir::UnwindAction::Cleanup(bb) => jnum(bb.as_usize()),
        _ => J::Null,
    }
}

fn binop_name(op: BinOp) -> &'static str {
    match op {
        BinOp::Add => "Add",
        BinOp::AddUnchecked => "AddUnchecked",
        BinOp::AddWithOverflow => "AddWithOverflow",
        BinOp::Sub => "Sub",
        BinOp::SubUnchecked => "SubUnchecked",
        BinOp::SubWithOverflow => "SubWithOverflow",
        BinOp::Mul => "Mul",
        BinOp::MulUnchecked => "MulUnchecked",
        BinOp::MulWithOverflow => "MulWithOverflow",
        BinOp::Div => "Div",
        BinOp::Rem => "Rem",
        BinOp::BitXor => "BitXor",
        BinOp::BitAnd => "BitAnd",
        BinOp::BitOr => "BitOr",
        BinOp::Shl => "Shl",
        BinOp::ShlUnchecked => "ShlUnchecked",
        BinOp::Shr => "Shr",
        BinOp::ShrUnchecked => "ShrUnchecked",
        BinOp::Eq => "Eq",
        BinOp::Lt => "Lt",
        BinOp::Le => "Le",
        BinOp::Ne => "Ne",
        BinOp::Ge => "Ge",
        BinOp::Gt => "Gt",
        BinOp::Cmp => "Cmp",
        BinOp::Offset => "Offset",
    }
}
